import MgpuProofs.C17Inv
/-! C17: from the per-bank FIFO invariant to flat-memory semantics at every commit point. -/
namespace C17

/-- byte `x` lies in the footprint of `r` -/
def touches (x : Nat) (r : Req) : Bool := decide (r.addr ≤ x ∧ x < r.addr + r.size)

/-- the request lies inside one interleave block (cache-line requests with interleave ≥ 64 B always do) -/
def fits (c : Cfg) (r : Req) : Prop := r.addr % 2 ^ c.ilv + r.size ≤ 2 ^ c.ilv

theorem wrByte_touches (r : Req) (x : Nat) (h : touches x r = false) : wrByte r x = none := by
  unfold wrByte
  split
  · rename_i hc
    simp only [touches, Req.size, hc.1, decide_eq_false_iff_not] at h
    exact absurd hc.2 h
  · rfl

theorem readByte_filter (x : Nat) (l : List Req) : readByte (l.filter (touches x)) x = readByte l x := by
  induction l with
  | nil => rfl
  | cons r l ih =>
    by_cases h : touches x r = true
    · simp only [List.filter_cons, h, if_true, readByte, ih]
    · have h' : touches x r = false := by simpa using h
      simp only [List.filter_cons, h', readByte, wrByte_touches r x h']
      simpa using ih

theorem block_of_touch (c : Cfg) (r : Req) (x : Nat) (hf : fits c r) (ht : touches x r = true) :
    x / 2 ^ c.ilv = r.addr / 2 ^ c.ilv := by
  have hB : 0 < 2 ^ c.ilv := Nat.pow_pos (by decide)
  simp only [touches, decide_eq_true_eq] at ht
  unfold fits at hf
  have h1 := Nat.div_add_mod r.addr (2 ^ c.ilv)
  apply Nat.div_eq_of_lt_le
  · rw [Nat.mul_comm]; omega
  · rw [Nat.add_mul, Nat.one_mul, Nat.mul_comm]; omega

/-- the bank address converter keeps interleave blocks together: its interleaving size and its offset are multiples
of the interleave block (MI300A: 128-byte interleaving, offset 0, 64-byte blocks); trivially true without converter -/
def ConvOk (c : Cfg) : Prop := match c.bconv with
  | none => True
  | some v => 2 ^ c.ilv ∣ v.isz ∧ 2 ^ c.ilv ∣ v.off

instance (c : Cfg) : Decidable (ConvOk c) := by
  unfold ConvOk; cases c.bconv <;> infer_instance

/-- what the converter does to block numbers (`q` = external address / block size) -/
def convBlock (m n idx o q : Nat) : Nat :=
  if q < o then q
  else if m * n = 0 then q
  else if (q - o) / m % n ≠ idx then q
  else (q - o) / (m * n) * m + q % m

theorem conv_block (B : Nat) (hB : 0 < B) (m n idx o a : Nat) :
    ((Conv.conv? ⟨B * m, n, idx, B * o⟩ a).getD a) / B = convBlock m n idx o (a / B) := by
  have hlt : a < B * o ↔ a / B < o := by rw [Nat.div_lt_iff_lt_mul hB, Nat.mul_comm]
  have hz : B * m * n = 0 ↔ m * n = 0 := by
    rw [Nat.mul_assoc, Nat.mul_eq_zero]; constructor
    · intro h; rcases h with h | h
      · omega
      · exact h
    · intro h; exact Or.inr h
  have hX : (a - B * o) / B = a / B - o := Nat.sub_mul_div a B o
  have hcond : (a - B * o) % (B * m * n) / (B * m) = (a / B - o) / m % n := by
    rw [Nat.mod_mul_right_div_self, ← Nat.div_div_eq_div_mul, hX]
  unfold Conv.conv? convBlock
  simp only
  by_cases h1 : a < B * o
  · rw [if_pos h1, if_pos (hlt.1 h1)]; rfl
  · rw [if_neg h1, if_neg (fun h => h1 (hlt.2 h))]
    by_cases h2 : B * m * n = 0
    · rw [if_pos h2, if_pos (hz.1 h2)]; rfl
    · rw [if_neg h2, if_neg (fun h => h2 (hz.2 h))]
      rw [hcond]
      by_cases h3 : (a / B - o) / m % n ≠ idx
      · rw [if_pos h3, if_pos h3]; rfl
      · rw [if_neg h3, if_neg h3]
        simp only [Option.getD_some]
        have e1 : (a - B * o) / (B * m * n) = (a / B - o) / (m * n) := by
          rw [Nat.mul_assoc, ← Nat.div_div_eq_div_mul, hX]
        have e2 : a % (B * m) = a % B + B * (a / B % m) := Nat.mod_mul
        rw [e1, e2]
        have e3 : (a / B - o) / (m * n) * (B * m) + (a % B + B * (a / B % m))
            = B * ((a / B - o) / (m * n) * m + a / B % m) + a % B := by
          rw [Nat.mul_add, ← Nat.mul_assoc B, Nat.mul_comm B ((a / B - o) / (m * n)), Nat.mul_assoc]
          omega
        rw [e3, Nat.mul_add_div hB, Nat.div_eq_of_lt (Nat.mod_lt _ hB), Nat.add_zero]

/-- addresses of one interleave block are sent to one block by the converter -/
theorem bankAddr_block (c : Cfg) (hc : ConvOk c) (a b : Nat) (h : a / 2 ^ c.ilv = b / 2 ^ c.ilv) :
    bankAddr c a / 2 ^ c.ilv = bankAddr c b / 2 ^ c.ilv := by
  unfold bankAddr
  unfold ConvOk at hc
  cases hv : c.bconv with
  | none => exact h
  | some v =>
    rw [hv] at hc
    obtain ⟨⟨m, hm⟩, ⟨o, ho⟩⟩ := hc
    have hB : 0 < 2 ^ c.ilv := Nat.pow_pos (by decide)
    have ev : v = ⟨2 ^ c.ilv * m, v.n, v.idx, 2 ^ c.ilv * o⟩ := by
      cases v; simp only [Conv.mk.injEq] at *; simp [hm, ho]
    simp only
    rw [ev, conv_block _ hB, conv_block _ hB, h]

/-- all requests touching a byte are served by one bank -/
theorem bank_of_touch (c : Cfg) (hc : ConvOk c) (r : Req) (x : Nat) (hf : fits c r) (ht : touches x r = true) :
    bankOf c r.addr = bankOf c x := by
  unfold bankOf; rw [bankAddr_block c hc _ _ (block_of_touch c r x hf ht).symm]

theorem split_unique {α : Type} (r : α) : ∀ (a a' b b' : List α), a ++ r :: b = a' ++ r :: b' → r ∉ a → r ∉ a' → a = a' := by
  intro a
  induction a with
  | nil =>
    intro a' b b' h _ h2
    cases a' with
    | nil => rfl
    | cons y t => simp at h; exact absurd (by simp [h.1]) h2
  | cons x t ih =>
    intro a' b b' h h1 h2
    cases a' with
    | nil => simp at h; exact absurd (by simp [h.1]) h1
    | cons y t' =>
      simp only [List.cons_append, List.cons.injEq] at h
      rw [h.1, ih t' b b' h.2 (fun hm => h1 (by simp [hm])) (fun hm => h2 (by simp [hm]))]

theorem not_mem_of_nodup_split {α : Type} (r : α) (a b : List α) (h : (a ++ r :: b).Nodup) : r ∉ a := by
  intro hm
  rw [List.nodup_append] at h
  exact h.2.2 r hm r (by simp) rfl

theorem nodup_of_ids (A : List Req) (hids : A.map (·.id) = List.range A.length) : A.Nodup := by
  have : (A.map (·.id)).Nodup := by rw [hids]; exact List.nodup_range
  exact List.Pairwise.of_map (·.id) (fun a b hab he => hab (by rw [he])) this

theorem arrived_nodup (c : Cfg) (s : State) (h : Inv c s) : s.arrived.Nodup := nodup_of_ids _ h.ids

theorem split_of_ids (A : List Req) (hids : A.map (·.id) = List.range A.length) (r : Req) (hr : r ∈ A) :
    A = A.take r.id ++ r :: A.drop (r.id + 1) := by
  obtain ⟨j, hj, hjr⟩ := List.getElem_of_mem hr
  have hid : (A.map (·.id))[j]'(by simpa using hj) = j := by
    simp only [hids]; simp
  have : r.id = j := by rw [← hjr]; simpa using hid
  rw [this, ← hjr]
  simp

/-- position of a request in the arrival list is its id -/
theorem arrived_split (c : Cfg) (s : State) (h : Inv c s) (r : Req) (hr : r ∈ s.arrived) :
    s.arrived = s.arrived.take r.id ++ r :: s.arrived.drop (r.id + 1) := split_of_ids _ h.ids r hr

/-- every committed request is an arrived one -/
theorem log_sub_arrived (c : Cfg) (s : State) (h : Inv c s) : ∀ r ∈ s.log, r ∈ s.arrived := by
  intro r hr
  have hi := h.i (bankOf c r.addr)
  have : r ∈ s.arrived.filter (inB c (bankOf c r.addr)) := by
    rw [← hi]; simp [hr, inB]
  exact (List.mem_filter.1 this).1

/-- **Key lemma (pure list form).** `A` = arrivals (ids = positions), `L` = a commit log (newest first) whose bank-`k` part
is, in order, the bank-`k` arrivals before `r`. On every byte `x` all of whose accessors are routed to bank `k`, `L` reads
like the flat memory obtained from the requests that arrived before `r`. -/
theorem flat_of_prefix (c : Cfg) (A L : List Req) (k : Nat) (r : Req) (rest : List Req)
    (hids : A.map (·.id) = List.range A.length)
    (hi : (L.filter (inB c k)).reverse ++ r :: rest = A.filter (inB c k))
    (hsub : ∀ r' ∈ L, r' ∈ A) (x : Nat) (hq : ∀ r' ∈ A, touches x r' = true → inB c k r' = true) :
    readByte L x = readByte (A.take r.id).reverse x := by
  have hrm : r ∈ A.filter (inB c k) := by rw [← hi]; simp
  have hra := (List.mem_filter.1 hrm).1
  have hrq : inB c k r = true := (List.mem_filter.1 hrm).2
  have hnd := nodup_of_ids A hids
  have hsplit := split_of_ids A hids r hra
  have hf2 : A.filter (inB c k) =
      (A.take r.id).filter (inB c k) ++ r :: (A.drop (r.id + 1)).filter (inB c k) := by
    conv => lhs; rw [hsplit]
    simp [List.filter_append, List.filter_cons, hrq]
  have hndf : (A.filter (inB c k)).Nodup := hnd.filter _
  have hpre : (L.filter (inB c k)).reverse = (A.take r.id).filter (inB c k) := by
    apply split_unique r _ _ rest ((A.drop (r.id + 1)).filter (inB c k))
    · rw [hi, hf2]
    · exact not_mem_of_nodup_split r _ rest (by rw [hi]; exact hndf)
    · exact not_mem_of_nodup_split r _ _ (by rw [← hf2]; exact hndf)
  have e1 : L.filter (touches x) = (L.filter (inB c k)).filter (touches x) := by
    rw [List.filter_filter]
    apply List.filter_congr
    intro r' hr'
    by_cases ht' : touches x r' = true
    · simp [ht', hq r' (hsub r' hr') ht']
    · simp [ht']
  have e2 : (A.take r.id).reverse.filter (touches x)
      = (((A.take r.id).filter (inB c k)).reverse).filter (touches x) := by
    rw [← List.filter_reverse, List.filter_filter]
    apply List.filter_congr
    intro r' hr'
    have hr'' : r' ∈ A := List.mem_of_mem_take (List.mem_reverse.1 hr')
    by_cases ht' : touches x r' = true
    · simp [ht', hq r' hr'' ht']
    · simp [ht']
  rw [← readByte_filter x L, ← readByte_filter x (A.take r.id).reverse, e1, e2, ← hpre]
  simp

/-- **Per-byte routing form.** In a state satisfying the invariant, the request `r` that is next to commit in bank `k`
finds on every byte `x` whose accessors are all routed to bank `k` exactly the flat memory obtained from the requests that
arrived before it — no assumption that requests stay inside one interleave block. -/
theorem head_sees_flat_routed (c : Cfg) (s : State) (h : Inv c s)
    (k : Nat) (r : Req) (rest : List Req) (hh : unc (chain c s k) = r :: rest) (x : Nat)
    (hq : ∀ r' ∈ s.arrived, touches x r' = true → bankOf c r'.addr = k) :
    readByte s.log x = readByte (s.arrived.take r.id).reverse x := by
  have hi := h.i k
  unfold I at hi
  rw [hh] at hi
  exact flat_of_prefix c s.arrived s.log k r rest h.ids hi (log_sub_arrived c s h) x
    (fun r' hr' ht' => by simp [inB, hq r' hr' ht'])

/-- **Key lemma.** In a state satisfying the invariant, the request `r` that is next to commit in its bank sees,
on every byte of its footprint, exactly the flat memory obtained from the requests that arrived before it. -/
theorem head_sees_flat (c : Cfg) (hc : ConvOk c) (s : State) (h : Inv c s) (hfit : ∀ r ∈ s.arrived, fits c r)
    (k : Nat) (r : Req) (rest : List Req) (hh : unc (chain c s k) = r :: rest) (x : Nat) (ht : touches x r = true) :
    readByte s.log x = readByte (s.arrived.take r.id).reverse x := by
  have hi := h.i k
  unfold I at hi
  rw [hh] at hi
  have hrm : r ∈ s.arrived.filter (inB c k) := by rw [← hi]; simp
  have hra := (List.mem_filter.1 hrm).1
  have hrq : inB c k r = true := (List.mem_filter.1 hrm).2
  have hk : bankOf c x = k := by
    rw [← bank_of_touch c hc r x (hfit r hra) ht]; simpa [inB] using hrq
  apply head_sees_flat_routed c s h k r rest hh x
  intro r' hr' ht'
  rw [bank_of_touch c hc r' x (hfit r' hr') ht', hk]

/-! arrivals are only added by `deliver` -/

theorem finalizeAt_arrived (c : Cfg) (s : State) (k : Nat) : (finalizeAt c s k).1.arrived = s.arrived := by
  unfold finalizeAt; split <;> rfl

theorem finalizeFrom_arrived (c : Cfg) : ∀ (ks : List Nat) (s : State), (finalizeFrom c ks s).1.arrived = s.arrived := by
  intro ks
  induction ks with
  | nil => intro s; rfl
  | cons k ks ih =>
    intro s
    simp only [finalizeFrom]
    split
    · exact finalizeAt_arrived c s k
    · rw [ih, finalizeAt_arrived]

theorem tick_arrived (c : Cfg) (s : State) : (tick c s).arrived = s.arrived := by
  unfold tick
  simp only
  split
  · exact finalizeFrom_arrived c _ s
  · split
    · show (finalize c s).1.arrived = s.arrived
      exact finalizeFrom_arrived c _ s
    · show (finalize c s).1.arrived = s.arrived
      exact finalizeFrom_arrived c _ s

/-- every delivered request lies inside one interleave block -/
def opFits (c : Cfg) : Op → Prop
  | .deliver k a l d _ => fits c ⟨0, k, a, l, d, none⟩
  | _ => True

instance (c : Cfg) (op : Op) : Decidable (opFits c op) := by
  cases op <;> unfold opFits <;> (try unfold fits) <;> infer_instance

theorem run_fits (c : Cfg) (ops : List Op) (hops : ∀ op ∈ ops, opFits c op) :
    ∀ r ∈ (run c ops).arrived, fits c r := by
  unfold run
  have : ∀ (ops : List Op) (s : State), (∀ op ∈ ops, opFits c op) → (∀ r ∈ s.arrived, fits c r) →
      ∀ r ∈ (ops.foldl (step c) s).arrived, fits c r := by
    intro ops
    induction ops with
    | nil => intro s _ h; exact h
    | cons o os ih =>
      intro s ho h
      apply ih _ (fun op hop => ho op (by simp [hop]))
      cases o with
      | deliver k a l d m =>
        have hf := ho (.deliver k a l d m) (by simp)
        simp only [step, deliver]
        split
        · intro r hr
          simp only [List.mem_append, List.mem_singleton] at hr
          rcases hr with hr | rfl
          · exact h r hr
          · simpa [opFits, fits, Req.size] using hf
        · exact h
      | tick => simp only [step, tick_arrived]; exact h
      | out k => exact h
  exact this ops _ hops (by simp [init])

end C17
