#!/usr/bin/env python3
"""Rewrites section 10 of DESIGN.md from asbuilt_intro.md + notes/C*.md (+ seeded summary)."""
import glob, os, re
R = os.path.dirname(os.path.abspath(__file__))
d = open(os.path.join(R, "DESIGN.md")).read()
marker = "\n## 10. As built"
if marker in d:
    d = d[:d.index(marker)]
d = d.rstrip() + "\n\n---------------------------------------------------------------------------------\n\n"
d += open(os.path.join(R, "asbuilt_intro.md")).read()
for f in sorted(glob.glob(os.path.join(R, "notes", "C*.md"))):
    name = os.path.basename(f)[:-3]
    body = open(f).read().strip()
    body = re.sub(r"^# ", "##### ", body, flags=re.M)
    body = re.sub(r"^## ", "##### ", body, flags=re.M)
    d += f"#### {name}\n\n{body}\n\n"
s = os.path.join(R, "seeded", "SUMMARY.md")
if os.path.exists(s):
    d += "### 10.6 Seeded-change results\n\n" + open(s).read() + "\n"
open(os.path.join(R, "DESIGN.md"), "w").write(d)
print("DESIGN.md section 10 regenerated")
