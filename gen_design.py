#!/usr/bin/env python3
"""Rewrites section 10 of DESIGN.md from asbuilt_intro.md + notes/C*.md (+ seeded summary)."""
import glob, os, re
R = os.path.dirname(os.path.abspath(__file__))
d = open(os.path.join(R, "DESIGN.md")).read()
marker = "\n## 10. As built"
if marker in d:
    d = d[:d.index(marker)]
d = d.rstrip() + "\n\n---------------------------------------------------------------------------------\n\n"
d += open(os.path.join(R, "asbuilt_intro.md")).read()
for f in sorted(glob.glob(os.path.join(R, "notes", "C*.md"))):
    name = os.path.basename(f)[:-3]
    body = open(f).read().strip()
    body = re.sub(r"^# ", "##### ", body, flags=re.M)
    body = re.sub(r"^## ", "##### ", body, flags=re.M)
    d += f"#### {name}\n\n{body}\n\n"
import json
d += "### 10.7 Findings register (generated from known_findings.json + known_findings.d/*.json)\n\n"
fixed, opened = [], {}
for f in [os.path.join(R, "known_findings.json")] + sorted(glob.glob(os.path.join(R, "known_findings.d", "*.json"))):
    if not os.path.exists(f): continue
    j = json.load(open(f))
    fixed += j.get("fixed", [])
    for k in j.get("findings", []):
        if k.get("status", "open") == "open":
            opened.setdefault(k["property"], []).append(k)
d += "**Repaired in /repo (`fix:` commits; a fixed entry suppresses nothing):**\n\n" + "".join(f"* {x}\n" for x in fixed) + "\n"
d += "**Open (printed as KNOWN-FINDING, matched by signature and input):**\n\n"
for pid in sorted(opened):
    ks = opened[pid]
    if len(ks) > 12:
        d += f"* {pid}: {len(ks)} entries, e.g.\n" + "".join(f"  * `{k['id']}` — {k['what'][:260]}\n" for k in ks[:6]) + f"  * … see the files for the other {len(ks)-6}\n"
    else:
        d += "".join(f"* {pid} `{k['id']}` — {k['what'][:300]}\n" for k in ks)
d += "\n"
s = os.path.join(R, "seeded", "SUMMARY.md")
if os.path.exists(s):
    d += "### 10.6 Seeded-change results\n\n" + open(s).read() + "\n"
open(os.path.join(R, "DESIGN.md"), "w").write(d)
print("DESIGN.md section 10 regenerated")
