#!/bin/bash
# runs every claimed check once (quick by default) and prints one status line per property
TIER=${1:-quick}
cd /verif
for p in $(python3 -c "import json;print(' '.join(c['property_id'] for c in json.load(open('MANIFEST.json'))['checks']))"); do
  out=$(./check $p --tier $TIER 2>&1); rc=$?
  echo "$out" | grep "^\[$p\]" | cut -c1-170 | sed "s/^/rc=$rc /"
  if [ $rc -ne 0 ]; then echo "$out" | grep -v "^KNOWN" | tail -4 | cut -c1-400; fi
done
