#!/bin/sh
# validate MANIFEST.json and evidence files against the schemas
python3-vt - <<'PY'
import json,jsonschema,glob
jsonschema.validate(json.load(open('/verif/MANIFEST.json')),json.load(open('/root/.vp/MANIFEST.schema.json')))
for f in glob.glob('/verif/evidence/*.json'):
    jsonschema.validate(json.load(open(f)),json.load(open('/root/.vp/EVIDENCE.schema.json')))
    print('ok',f)
print('manifest ok')
PY
